"""Constructors for the gene-database contracts (/verif/contracts/gene_catalogue.py, properties C08/C09).

* `make_database(dbid)`  a random but CONSISTENT gene database as YAML text: every variant is written
  against the generated RefSeq sequence (the written reference allele equals RefSeq), both builds are
  described (different offsets, either strand, alignment strings with small I/D blocks), regions tile
  the mapped range, the allele table contains the constructions the loader distinguishes.
  The database is a function of `dbid` only:  `/venv/bin/python /verif/replay/factories_gene.py <dbid>`
  prints the YAML of a failing input (the id is the `version:` field, `gen-<dbid>`).
* `shipped_configs()`    the 38 shipped databases x {hg19, hg38}, small ones first.
"""
import glob
import os
import random
import sys

import yaml

import factories

# a Gene that is not yet initialised (the `self` handed to Gene.__init__) has no attributes
factories.DESCRIBE["Gene"] = lambda o, d: f"Gene({getattr(o, 'name', None)!r}, genome={getattr(o, 'genome', None)!r})"

BASES = "ACGT"
GENE, PSEUDO = "GEN", "GENP"
BUILDS = ("hg19", "hg38")


# --------------------------------------------------------------------------- alignment

def align(length, cigar_ops, start0, strand):
    """RefSeq index -> genome coordinate (0-based) for an alignment given in GENOME order
    (M: both advance, I: RefSeq only, D: genome only); RefSeq runs backwards on the '-' strand."""
    r2c = {}
    g = start0
    r = 0 if strand > 0 else length - 1
    for op, n in cigar_ops:
        if op == "M":
            for k in range(n):
                r2c[r + k * strand] = g + k
            g += n
            r += n * strand
        elif op == "I":
            r += n * strand
        else:
            g += n
    return r2c, g - start0


def _spaced(rng, lo, hi, k, gap):
    """k sorted integers in [lo, hi) at least `gap` apart"""
    for _ in range(200):
        xs = sorted(rng.sample(range(lo, hi), k))
        if all(b - a >= gap for a, b in zip(xs, xs[1:])):
            return xs
    step = (hi - lo) // (k + 1)
    return [lo + step * (i + 1) for i in range(k)]


# --------------------------------------------------------------------------- the database generator

def make_database(dbid):
    """-> (gene name, YAML text, info dict)"""
    rng = random.Random(f"genedb/{dbid}")
    L = rng.randint(300, 600)
    seq = []
    while len(seq) < L:
        r = rng.random()
        if r < 0.012:     # homopolymer run
            seq += [rng.choice(BASES)] * rng.randint(3, 7)
        elif r < 0.02:    # short tandem repeat
            seq += list("".join(rng.choice(BASES) for _ in range(rng.randint(2, 3))) * rng.randint(2, 4))
        else:
            seq.append(rng.choice(BASES))
    seq = "".join(seq[:L])

    # regions in RefSeq coordinates, 5' -> 3':  up e1 i1 e2 i2 e3 [zero-length] down
    cuts = _spaced(rng, 18, L - 18, 6, 10)
    bounds = [0] + cuts + [L]
    names = ["up", "e1", "i1", "e2", "i2", "e3", "down"]
    rs_regions = [(n, bounds[i], bounds[i + 1]) for i, n in enumerate(names)]
    zero = None
    if rng.random() < 0.4:
        if rng.random() < 0.5:
            zero = ("pce", cuts[5])      # between e3 and down
        else:
            zero = ("utr5", cuts[0])     # between up and e1
    exons = [[b + 1, e + 1] for n, b, e in rs_regions if n[0] == "e"]
    has_pseudo = rng.random() < 0.7

    strands = rng.choice([("+", "+"), ("-", "-"), ("+", "-"), ("-", "+"), ("+", "-"), ("-", "+")])
    mappings, regions_yaml, maps = {}, {}, {}
    for build, sc in zip(BUILDS, strands):
        strand = 1 if sc == "+" else -1
        start0 = rng.randint(5000, 50000)
        # gaps of the alignment, in RefSeq coordinates, away from the region boundaries
        gaps = []
        if rng.random() < 0.4:
            for _ in range(rng.choice([1, 1, 2])):
                for _ in range(50):
                    at = rng.randint(8, L - 12)
                    kind = rng.choice("ID")
                    size = rng.randint(1, 3) if kind == "I" else rng.randint(1, 5)
                    lo, hi = at, at + (size if kind == "I" else 0)
                    if all(abs(lo - c) > 5 and abs(hi - c) > 5 for c in cuts) and \
                            all(hi + 8 < g[0] or g[0] + g[2] + 8 < lo for g in gaps):
                        gaps.append((at, kind, size))
                        break
        ops, prev = [], 0
        for at, kind, size in sorted(gaps):
            ops.append(("M", at - prev))
            ops.append((kind, size))
            prev = at + (size if kind == "I" else 0)
        ops.append(("M", L - prev))
        if strand < 0:
            ops = ops[::-1]
        r2c, glen = align(L, ops, start0, strand)
        maps[build] = (r2c, strand)
        mappings[build] = ["7", start0 + 1, start0 + glen + 1, sc, " ".join(f"{o}{n}" for o, n in ops)]

        # regions of the gene in genome coordinates
        ext_up, ext_down = rng.choice([0, 0, 7, 25]), rng.choice([0, 0, 5, 30])
        greg = {}
        for n, b, e in rs_regions:
            lo = min(r2c[b], r2c[e - 1])
            hi = max(r2c[b], r2c[e - 1]) + 1
            if n == "up":
                lo, hi = (lo - ext_up, hi) if strand > 0 else (lo, hi + ext_up)
            if n == "down":
                lo, hi = (lo, hi + ext_down) if strand > 0 else (lo - ext_down, hi)
            greg[n] = (lo, hi)
        if zero:
            x = r2c[zero[1]] if strand > 0 else r2c[zero[1] - 1]
            greg[zero[0]] = (x, x)
        # the pseudogene: same regions, same orientation, elsewhere
        order = sorted(greg, key=lambda n: greg[n])
        if has_pseudo:
            span_lo = min(v[0] for v in greg.values())
            span_hi = max(v[1] for v in greg.values())
            pos = span_hi + rng.randint(150, 900) if rng.random() < 0.5 or span_lo < 2500 else span_lo - rng.randint(1200, 2200)
            preg = {}
            for n in order:
                w = greg[n][1] - greg[n][0]
                if w == 0:
                    w = rng.randint(4, 15)
                elif n[0] != "e" and rng.random() < 0.5:
                    w = max(3, w + rng.randint(-3, 6))
                preg[n] = (pos, pos + w)
                pos += w
        regions_yaml[build] = {}
        listed = [n for n in ["up"] + (["utr5"] if zero and zero[0] == "utr5" else []) + ["e1", "e2", "e3"]
                  + (["pce"] if zero and zero[0] == "pce" else []) + ["down"]]
        if rng.random() < 0.3:
            rng.shuffle(listed)
        for n in listed:
            c = [greg[n][0] + 1, greg[n][1] + 1]
            if has_pseudo:
                c += [preg[n][0] + 1, preg[n][1] + 1]
            regions_yaml[build][n] = c

    all_regions = ["up"] + (["utr5"] if zero and zero[0] == "utr5" else []) + ["e1", "i1", "e2", "i2", "e3"] \
        + (["pce"] if zero and zero[0] == "pce" else []) + ["down"]

    # ---------------------------------------------------------------- variants (written against RefSeq)
    used = set()

    def free(p0, n):
        return 2 <= p0 and p0 + n <= L - 2 and not any(i in used for i in range(p0 - 1, p0 + n + 1))

    def other_base(b):
        return rng.choice([c for c in BASES if c != b])

    def variant(kind=None, at=None):
        """[1-based RefSeq position, op] with a footprint that does not touch earlier variants"""
        for _ in range(300):
            k = kind or rng.choices(["snp", "mnp", "dot", "ins", "del", "delins"], [40, 12, 7, 14, 15, 12])[0]
            n = {"snp": 1, "mnp": rng.randint(2, 3), "dot": rng.randint(3, 4), "ins": 2,
                 "del": rng.randint(1, 4), "delins": rng.randint(1, 4)}[k]
            p0 = at - rng.randint(1, n - 1) if at is not None and n > 1 else (at if at is not None else rng.randint(3, L - 8))
            if k == "ins" and at is not None:
                p0 = at - 1
            if not free(p0, n):
                if at is not None:
                    at = None
                continue
            ref = seq[p0:p0 + n]
            if k == "snp":
                op = f"{ref}>{other_base(ref)}"
            elif k == "mnp":
                op = f"{ref}>{''.join(other_base(b) for b in ref)}"
            elif k == "dot":
                mid = "." * (n - 2)
                op = f"{ref[0]}{mid}{ref[-1]}>{other_base(ref[0])}{mid}{other_base(ref[-1])}"
            elif k == "ins":
                op = "ins" + "".join(rng.choice(BASES) for _ in range(rng.randint(1, 3)))
            elif k == "del":
                op = f"del{ref}"
            else:
                alt = other_base(ref[0]) + "".join(rng.choice(BASES) for _ in range(rng.randint(0, 3)))
                op = f"del{ref}ins{alt}"
            used.update(range(p0, p0 + n))
            return [p0 + 1, op]
        return None

    def with_info(v, functional):
        rsid = f"rs{rng.randint(100, 99999)}" if rng.random() < 0.6 else "-"
        if functional:
            return v + [rsid, rng.choice(["frameshift", "splicing defect", f"{rng.choice('ACDEFGHIKL')}{rng.randint(1, 99)}{rng.choice('MNPQRSTVWY')}"])]
        r = rng.random()
        return v if r < 0.25 and rsid == "-" else v + [rsid]

    pool_core, pool_silent = [], []
    # some multi-base variants / insertions right at a region boundary
    for c in rng.sample(cuts, rng.choice([0, 0, 0, 1, 1, 2])):
        v = variant(rng.choice(["mnp", "del", "delins", "ins", "dot"]), at=c)
        if v:
            (pool_core if rng.random() < 0.6 else pool_silent).append(v)
    while len(pool_core) < 4:
        v = variant()
        if v:
            pool_core.append(v)
    while len(pool_silent) < 5:
        v = variant()
        if v:
            pool_silent.append(v)
    # every kind occurs somewhere
    for k in ["mnp", "dot", "ins", "del", "delins"]:
        if rng.random() < 0.5:
            v = variant(k)
            if v:
                (pool_core if rng.random() < 0.45 else pool_silent).append(v)
    core = [with_info(v, True) for v in pool_core]
    silent = [with_info(v, False) for v in pool_silent]
    # the same variant may be written without its annotation elsewhere (first entry of the table wins)
    def entry(v):
        return list(v[:2]) + (["-"] if rng.random() < 0.5 else []) if rng.random() < 0.06 else list(v)

    def some(pool, lo, hi):
        k = min(len(pool), rng.randint(lo, hi))
        return [entry(v) for v in rng.sample(pool, k)]

    alleles = {}
    meta_keys = {}

    def add(name, muts, label=None, **extra):
        key = f"{GENE}*{name}"
        if key in alleles:
            return False
        a = {}
        if label is not None:
            a["label"] = f"{GENE}*{label}"
        if rng.random() < 0.3:
            a["activity"] = rng.choice(["normal function", "no function", "decreased function"])
        if rng.random() < 0.2:
            a["evidence"] = rng.choice(["D", "L", "M"])
        if rng.random() < 0.2:
            a["pharmvar"] = f"https://www.pharmvar.org/haplotype/{rng.randint(1, 999)}"
        a.update(extra)
        a["mutations"] = muts
        alleles[key] = a
        return True

    def sub(num, j, style):
        return f"{num}.{j:03d}" if style == 0 else f"{num}.{j}"

    add("1.001", [], label="1")
    for j in range(rng.randint(0, 2)):
        add(f"1.{j + 2:03d}", some(silent, 1, 2), label=rng.choice([None, f"1{'BCD'[j]}"]))

    nums = rng.sample(range(2, 16), rng.randint(2, 5))
    cores = {}
    for num in nums:
        cs = some(core, 1, 2)
        if cores and rng.random() < 0.25:          # same core variants under another number
            cs = [list(v) for v in rng.choice(list(cores.values()))]
        cores[num] = cs
        style = 0 if rng.random() < 0.8 else 1
        first = 1 if style == 0 else rng.choice([1, 8, 9])
        nsub = rng.randint(1, 3)
        prev = None
        for j in range(nsub):
            extra_silent = some(silent, 0, 2) if j or rng.random() < 0.3 else []
            if prev is not None and rng.random() < 0.3:
                extra_silent = [list(v) for v in prev]       # duplicate variant set inside one number
            prev = extra_silent
            label = rng.choice([None, str(num), f"{num}{'ABC'[j]}"]) if j == 0 else rng.choice([None, None, f"{num}{'ABC'[j]}"])
            add(sub(num, first + j, style), [list(v) for v in cs] + extra_silent, label=label)
    # duplicate variant sets under names whose natural and lexicographic orders differ
    if rng.random() < 0.4:
        lo = rng.choice([n for n in range(2, 10)])
        hi = rng.choice([n for n in range(10, 16)])
        muts = some(core, 1, 1) + some(silent, 0, 1)
        if rng.random() < 0.5:
            add(f"{lo}.{rng.choice(['001', '002', '9'])}", [list(v) for v in muts])
            add(f"{hi}.{rng.choice(['001', '003', '10'])}", [list(v) for v in muts])
        else:
            num = rng.choice(nums)
            muts = [list(v) for v in cores[num]] + some(silent, 1, 2)
            add(f"{num}.9", [list(v) for v in muts])
            add(f"{num}.10", [list(v) for v in muts])
    # name collisions: one number, different core variants (also with one shared label)
    if rng.random() < 0.55:
        num = rng.choice(nums)
        shared = rng.random() < 0.6
        if shared:
            for k in list(alleles):
                if k.startswith(f"{GENE}*{num}."):
                    alleles[k]["label"] = f"{GENE}*{num}"
        for j in range(rng.randint(1, 3)):
            cs = some(core, 1, 3)
            add(f"{num}.{20 + j:03d}", cs + some(silent, 0, 1), label=str(num) if shared else rng.choice([None, f"{num}{'XYZ'[j]}"]))
    # structural alleles
    free_nums = [n for n in range(16, 40)]
    rng.shuffle(free_nums)
    if rng.random() < 0.5:
        add(f"{free_nums.pop()}.001", [[GENE, "deletion"]], label=rng.choice([None, "DEL"]))
    if has_pseudo:
        brks = ["e1", "i1", "e2", "i2", "e3"] + ([zero[0]] if zero else []) + ["down"]
        for _ in range(rng.choice([0, 1, 1, 2, 3])):      # left fusions
            brk = rng.choice(brks)
            r = rng.random()
            muts = [[PSEUDO, f"{brk}-"]]
            if r < 0.45:
                pass                                       # bare
            elif r < 0.65:
                muts += some(silent, 1, 2)                 # silent variants only
            else:
                muts += some(core, 1, 2) + some(silent, 0, 1)
            num = free_nums.pop()
            add(f"{num}.001", muts, label=rng.choice([None, str(num)]))
            if rng.random() < 0.3:                         # a second allele with the same breakpoint
                r = rng.random()
                muts2 = [[PSEUDO, f"{brk}-"]] + (some(core, 1, 1) if r < 0.5 else some(silent, 0, 1))
                add(rng.choice([f"{num}.002", f"{free_nums.pop()}.001"]), muts2)
        for _ in range(rng.choice([0, 1, 1, 2])):          # right fusions
            brk = rng.choice(brks)
            muts = [[PSEUDO, brk + rng.choice(["+", "+", ""])]]
            if rng.random() < 0.5:
                muts += some(core, 1, 2) + some(silent, 0, 1)
            add(f"{free_nums.pop()}.001", muts)
    if rng.random() < 0.3:
        items = rng.sample(["e1", "i1", "e2", "i2", "e3"], rng.randint(1, 2))
        muts = [[GENE, "deletion:" + ",".join(items)]] + (some(core, 0, 1))
        add(f"{free_nums.pop()}.001", muts)
    # ignored material
    if rng.random() < 0.3:
        add(f"{free_nums.pop()}.001", some(core, 1, 2) + some(silent, 0, 2), ignored=True)
    if rng.random() < 0.3:
        k = rng.choice(list(alleles))
        v = variant()
        if v and not alleles[k].get("ignored"):
            alleles[k]["mutations"].append(["ignored"] + with_info(v, rng.random() < 0.5))
    groups = None
    if rng.random() < 0.3:
        gm = []
        for _ in range(rng.randint(1, 3)):
            v = variant()
            if v:
                gm.append(with_info(v, False))
        groups = {"utr3": gm}
        for k in rng.sample(list(alleles), min(2, len(alleles))):
            if [GENE, "deletion"] not in alleles[k]["mutations"]:
                alleles[k]["mutations"].append([GENE, "utr3"])
    rand = None
    if rng.random() < 0.4:
        rand = []
        for _ in range(rng.randint(1, 3)):
            v = variant()
            if v:
                rand.append(with_info(v, rng.random() < 0.2))
        if rng.random() < 0.4:
            v = variant()
            if v:
                rand.append(["ignored"] + v)
        if rng.random() < 0.3:
            rand += some(silent, 1, 1)

    # shuffle the allele table a little (the loader must not depend on the order) but keep *1 first
    keys = list(alleles)
    if rng.random() < 0.5:
        tail = keys[1:]
        rng.shuffle(tail)
        keys = keys[:1] + tail
    table = {}
    if rand is not None and rng.random() < 0.5:
        table["random"] = rand
    for k in keys:
        table[k] = alleles[k]
    if rand is not None and "random" not in table:
        table["random"] = rand
    if groups is not None:
        table["groups"] = groups

    structure = {"genes": [GENE, PSEUDO] if has_pseudo else [GENE], "regions": regions_yaml,
                 "cn_regions": [r for r in all_regions if r not in ("up", "down") and rng.random() < 0.8] or ["e1"]}
    if rng.random() < 0.5:
        majors = sorted({k.split("*")[1].split(".")[0] for k in alleles})
        structure["tandems"] = [[rng.choice(majors), rng.choice(majors)] for _ in range(rng.randint(1, 2))]
    doc = {"name": GENE, "version": f"gen-{dbid}", "generated": "2026-01-01"}
    if rng.random() < 0.5:
        doc["pharmvar"] = "https://www.pharmvar.org/gene/GEN"
    doc["alleles"] = table
    doc["structure"] = structure
    doc["reference"] = {"name": "NG_GEN.1", "mappings": mappings, "exons": exons, "seq": seq}
    text = yaml.safe_dump(doc, sort_keys=False, default_flow_style=None, width=100000)
    info = {"dbid": dbid, "length": L, "strands": strands, "pseudogene": has_pseudo, "zero_region": zero,
            "cigars": {b: mappings[b][4] for b in BUILDS}}
    return GENE, text, info


# --------------------------------------------------------------------------- shipped databases

_SHIPPED = []


def shipped_configs(repo):
    """[(label, path, genome)] for the shipped databases, small files first (DPYD, RYR1 last)"""
    if not _SHIPPED:
        d = os.path.join(repo, "aldy", "resources", "genes")
        paths = sorted(glob.glob(os.path.join(d, "*.yml")), key=lambda p: (os.path.getsize(p), p))
        for p in paths:
            for g in BUILDS:
                _SHIPPED.append((f"{os.path.basename(p)[:-4]}/{g}", p, g))
    return list(_SHIPPED)


if __name__ == "__main__":
    _name, _text, _info = make_database(int(sys.argv[1]))
    sys.stdout.write(_text)
    sys.stderr.write(f"# {_info}\n")
