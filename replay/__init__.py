"""Native (CPython) runtime checker for the sidecar contracts. See SPEC.md."""
