"""Input hooks (native checker) for the result layer: contracts/diplotype.py and
contracts/solutions_accessors.py.  `gen_<qualname with dots -> _>(rng, ctx)` returns the argument dict.
"""
from factories_result import (NamedStringIO, result_gene, make_solved, make_cn_solution, make_major_solution,
                              make_minor_solution, make_solution_list, make_result_coverage)

SAMPLES = ["S", "NA10860", "sample_1", "HG00436.cyp2d6"]


# --------------------------------------------------------------------------- aldy/diplotype.py

def gen_aldy_diplotype_estimate_diplotype(rng, ctx):
    """0-6 called copies of a real gene in random order (duplicates, tandem pairs, fused alleles,
    added/missing variants); half of the solutions have no `diplotype` attribute yet."""
    gene = result_gene(rng, ctx)
    return {"gene": gene, "solution": make_minor_solution(rng, ctx, gene)}


def gen_aldy_diplotype_write_decomposition(rng, ctx):
    gene = result_gene(rng, ctx)
    n = rng.choice([0, 1, 1, 2, 2, 2, 3, 3, 4, 4, 5])
    minor = make_minor_solution(rng, ctx, gene, n, with_diplotype=True)
    return {"sample": rng.choice(SAMPLES), "gene": gene, "coverage": make_result_coverage(rng, ctx, gene, [minor]),
            "sol_id": rng.choice([0, 1, 2, 3, 7]), "minor": minor, "f": NamedStringIO(name="out.aldy")}


def gen_aldy_diplotype_write_vcf(rng, ctx):
    """1-4 solutions (0-4 copies each) that differ from each other but share variants."""
    gene = result_gene(rng, ctx)
    minors = make_solution_list(rng, ctx, gene)
    return {"sample": rng.choice(SAMPLES), "gene": gene, "coverage": make_result_coverage(rng, ctx, gene, minors),
            "minors": minors, "f": NamedStringIO(name="out.vcf")}


# --------------------------------------------------------------------------- aldy/solutions.py accessors

def _solved(rng, ctx):
    gene = result_gene(rng, ctx)
    return {"self": make_solved(rng, ctx, gene, minor=rng.random() < 0.85)}


gen_aldy_solutions_SolvedAllele_mutations = _solved
gen_aldy_solutions_SolvedAllele_major_repr = _solved
gen_aldy_solutions_SolvedAllele___str__ = _solved


def gen_aldy_solutions_MajorSolution__solution_nice(rng, ctx):
    gene = result_gene(rng, ctx)
    return {"self": make_major_solution(rng, ctx, gene)}


def _cn(rng, ctx):
    gene = result_gene(rng, ctx)
    return {"self": make_cn_solution(rng, ctx, gene)}


gen_aldy_solutions_CNSolution__solution_nice = _cn
gen_aldy_solutions_CNSolution___str__ = _cn


def _minor(rng, ctx):
    gene = result_gene(rng, ctx)
    return {"self": make_minor_solution(rng, ctx, gene)}


gen_aldy_solutions_MinorSolution__solution_nice = _minor


def _minor_index(rng, ctx):
    gene = result_gene(rng, ctx)
    ms = make_minor_solution(rng, ctx, gene, rng.choice([1, 1, 2, 2, 3, 4, 6]))
    n = len(ms.solution)
    # -1 is the deletion placeholder; out-of-range indices are excluded by the contract's requires
    return {"self": ms, "i": rng.choice([-1] + list(range(n)) * 3 + [n])}


gen_aldy_solutions_MinorSolution_get_major_name = _minor_index


def gen_aldy_solutions_MinorSolution_get_minor_name(rng, ctx):
    out = _minor_index(rng, ctx)
    out["legacy"] = rng.random() < 0.5
    return out


def gen_aldy_solutions_MinorSolution_get_major_diplotype(rng, ctx):
    gene = result_gene(rng, ctx)
    return {"self": make_minor_solution(rng, ctx, gene, with_diplotype=True)}


def gen_aldy_solutions_MinorSolution_get_mutation_coverages(rng, ctx):
    gene = result_gene(rng, ctx)
    ms = make_minor_solution(rng, ctx, gene)
    return {"self": ms, "coverage": make_result_coverage(rng, ctx, gene, [ms])}
