"""Object factories for the result layer (aldy/diplotype.py, aldy/solutions.py): called alleles,
major/minor solutions, lists of differing solutions, coverage tables over the called variants and
in-memory output files.  Used by the hooks in inputs_result.py (contracts/diplotype.py and
contracts/solutions_accessors.py).  Everything is deterministic for a given random.Random.

The generic factories of factories.py are reused (gene cache/loader, deep-copy memo, Profile factory);
the gene pool here is wider (toy, CYP2D6, CYP2A6, CYP2C19, GSTM1), because the result layer depends
on the allele naming scheme, deletion allele and tandem list of the gene.
"""
import copy
import io
import re
from collections import Counter, defaultdict

from factories import FACTORIES, FLOATS, QUALS, big_table_memo, load_gene

# (label, file, genome, weight)
RESULT_GENE_POOL = [
    ("toy/hg19", "toy", "hg19", 22),
    ("toy/hg38", "toy", "hg38", 10),
    ("cyp2d6/hg19", "cyp2d6", "hg19", 12),
    ("cyp2d6/hg38", "cyp2d6", "hg38", 12),
    ("cyp2a6/hg19", "cyp2a6", "hg19", 8),
    ("cyp2a6/hg38", "cyp2a6", "hg38", 8),
    ("cyp2c19/hg19", "cyp2c19", "hg19", 8),
    ("cyp2c19/hg38", "cyp2c19", "hg38", 6),
    ("gstm1/hg19", "gstm1", "hg19", 7),
    ("gstm1/hg38", "gstm1", "hg38", 7),
]


class NamedStringIO(io.StringIO):
    """In-memory text file with a `.name` (the writers receive an open file)."""

    def __init__(self, value="", name="out.txt"):
        super().__init__(value)
        self.name = name

    def __repr__(self):
        return f"NamedStringIO(name={self.name!r}, chars={len(self.getvalue())})"


def result_gene(rng, ctx):
    """The case's gene: one deep copy of a really loaded gene, shared by all arguments of the case."""
    if ctx._gene is None:
        pool = [g for g in RESULT_GENE_POOL if ctx.genes == "all" or g[1] == ctx.genes] or RESULT_GENE_POOL
        label, name, genome, _ = rng.choices(pool, weights=[g[3] for g in pool])[0]
        g = load_gene(ctx, name, genome)
        ctx._gene = copy.deepcopy(g, big_table_memo(g))
        ctx.gene_label = label
    return ctx._gene


def allele_number(major):
    """'13#4' -> '13', '1C' -> '1', '4.021.ALDY' -> '4', 'Null' -> 'Null' (generation only)"""
    parts = re.split(r"(\d+)", str(major).split("#")[0])
    return parts[0] if parts[0] != "" else parts[1]


def _mut(ctx, m):
    return ctx.cls("Mutation")(m[0], m[1])


def pick_mutations(rng, ctx, gene, k, exclude=()):
    """k distinct catalogue variants (functional and silent ones, SNPs and indels)."""
    func = sorted(m for m, v in gene.mutations.items() if v[0] is not None and m not in exclude)
    silent = sorted(m for m, v in gene.mutations.items() if v[0] is None and m not in exclude)
    indel = sorted(m for m in gene.mutations if ">" not in m[1] and m not in exclude)
    out = []
    for _ in range(k):
        r = rng.random()
        pool = func if r < 0.45 else silent if r < 0.8 else indel
        pool = [m for m in (pool or func or silent) if m not in out]
        if pool:
            out.append(rng.choice(pool))
    return [_mut(ctx, m) for m in out]


def pick_major(rng, gene, prefer=None):
    names = sorted(gene.alleles)
    if prefer:
        names = [a for a in names if a in prefer] or names
    r = rng.random()
    fused = [a for a in names if "#" in a]
    if fused and r < 0.25:
        return rng.choice(fused)
    dele = gene.deletion_allele()
    if dele in gene.alleles and dele in names and r < 0.30:
        return dele
    return rng.choice(names)


def make_solved(rng, ctx, gene, major=None, minor=True, p_added=0.45, p_missing=0.35):
    """A called allele copy: random minor of the major, `added` drawn from the catalogue variants the
    allele does not have (functional and silent), `missing` drawn from the allele's own definition."""
    SolvedAllele = ctx.cls("SolvedAllele")
    major = major if major is not None else pick_major(rng, gene)
    al = gene.alleles[major]
    mn = ""
    if minor:
        mn = rng.choice(sorted(al.minors))
    own = set(al.func_muts) | (set(al.minors[mn].neutral_muts) if mn else set())
    added, missing = [], []
    if rng.random() < p_added:
        added = pick_mutations(rng, ctx, gene, rng.choice([1, 1, 2, 3]), exclude=own)
        if rng.random() < 0.1 and own:
            added.append(_mut(ctx, rng.choice(sorted(own))))  # re-adding a variant of the definition
    if rng.random() < p_missing and own:
        ms = sorted(own)
        missing = [_mut(ctx, m) for m in rng.sample(ms, min(len(ms), rng.choice([1, 1, 2])))]
        if rng.random() < 0.1:
            missing += pick_mutations(rng, ctx, gene, 1, exclude=own)  # losing a variant it never had
    return SolvedAllele(gene, major, mn, added, missing)


def make_cn_solution(rng, ctx, gene, majors=None):
    CNSolution = ctx.cls("CNSolution")
    if majors is None:
        names = sorted(gene.cn_configs)
        confs = [rng.choice(names) for _ in range(rng.choice([0, 1, 2, 2, 3, 4]))]
    else:
        confs = [gene.alleles[m].cn_config for m in majors]
    return CNSolution(gene, rng.choice(FLOATS), confs)


def make_major_solution(rng, ctx, gene, solved=None):
    """Major solution over the given called copies (minor names dropped, as the major stage reports them)."""
    MajorSolution = ctx.cls("MajorSolution")
    SolvedAllele = ctx.cls("SolvedAllele")
    if solved is None:
        solved = [make_solved(rng, ctx, gene, minor=False, p_missing=0.0) for _ in range(rng.choice([0, 1, 2, 2, 3, 4]))]
    cnt = Counter()
    for sa in solved:
        functional_added = [m for m in sa.added if gene.mutations.get((m.pos, m.op), (None,))[0] is not None]
        cnt[SolvedAllele(gene, sa.major, "", list(functional_added), [])] += 1
    novel = pick_mutations(rng, ctx, gene, rng.choice([0, 0, 1, 2]))
    return MajorSolution(rng.choice(FLOATS), cnt, make_cn_solution(rng, ctx, gene, [sa.major for sa in solved]), novel)


def pick_majors(rng, gene, n, pool=None):
    """n major allele names; with >2 copies of a gene that lists common tandems, often a tandem pair
    (by allele number), and often duplicates."""
    majors = []
    nums = defaultdict(list)
    for a in sorted(gene.alleles):
        nums[allele_number(a)].append(a)
    while len(majors) < n:
        r = rng.random()
        left = n - len(majors)
        if gene.common_tandems and left >= 2 and n > 2 and r < 0.45:
            ta, tb = rng.choice(list(gene.common_tandems))
            if nums.get(ta) and nums.get(tb):
                majors += [rng.choice(nums[ta]), rng.choice(nums[tb])]
                continue
        if majors and r < 0.65:
            majors.append(rng.choice(majors) if rng.random() < 0.6 else rng.choice(nums[allele_number(rng.choice(majors))]))
            continue
        majors.append(pick_major(rng, gene, pool))
    rng.shuffle(majors)
    return majors[:n]


def arrange(rng, gene, n):
    """An arrangement of copy indices over two haplotypes (with deletion placeholders), independent of
    the function under test (estimate_diplotype): the writers only print it."""
    idx = list(range(n))
    rng.shuffle(idx)
    k = rng.randint(0, n) if n < 2 else rng.randint(1, n - 1)
    d = [sorted(idx[:k]), sorted(idx[k:])]
    if gene.deletion_allele():
        for h in d:
            if not h and n < 2:
                h.append(-1)
    return d


def make_minor_solution(rng, ctx, gene, n=None, pool=None, with_diplotype=None, profile="random"):
    MinorSolution = ctx.cls("MinorSolution")
    if n is None:
        n = rng.choice([0, 1, 1, 2, 2, 2, 3, 3, 4, 4, 5, 6])
    majors = pick_majors(rng, gene, n, pool)
    solved = [make_solved(rng, ctx, gene, m) for m in majors]
    major = make_major_solution(rng, ctx, gene, solved)
    if profile == "random":
        profile = None
        if rng.random() < 0.7:
            profile = FACTORIES["Profile"](rng, ctx)
            profile.display_format = rng.random() < 0.4
    ms = MinorSolution(rng.choice(FLOATS), solved, major, profile)
    if with_diplotype is None:
        with_diplotype = rng.random() < 0.5
    if with_diplotype:
        ms.diplotype = arrange(rng, gene, n)
    return ms


def make_solution_list(rng, ctx, gene, k=None):
    """1-4 solutions that differ from each other but share alleles/variants (a small pool of majors)."""
    if k is None:
        k = rng.choice([1, 2, 2, 3, 4])
    pool = sorted({pick_major(rng, gene) for _ in range(rng.choice([1, 2, 3]))})
    prof = None
    if rng.random() < 0.6:
        prof = FACTORIES["Profile"](rng, ctx)
        prof.display_format = rng.random() < 0.3
    out = []
    for _ in range(k):
        n = rng.choice([0, 1, 2, 2, 2, 3, 3, 4])
        out.append(make_minor_solution(rng, ctx, gene, n, pool if rng.random() < 0.85 else None, True, prof))
    return out


def carried_variants(gene, solutions, with_missing=True):
    out = set()
    for ms in solutions:
        for sa in ms.solution:
            al = gene.alleles[sa.major]
            out |= set(al.func_muts) | set(sa.added) | (set(sa.missing) if with_missing else set())
            if sa.minor:
                out |= set(al.minors[sa.minor].neutral_muts)
    return out


def make_result_coverage(rng, ctx, gene, solutions):
    """Coverage with random tables over the positions of the variants of the given solutions."""
    Coverage = ctx.cls("Coverage")
    muts = sorted(carried_variants(gene, solutions))
    extra = pick_mutations(rng, ctx, gene, 2)
    table = {}
    for m in muts + extra:
        if rng.random() < 0.15:
            continue
        ops = table.setdefault(m.pos, {})
        if rng.random() < 0.8:
            ops["_"] = [(rng.choice(QUALS), rng.choice(QUALS)) for _ in range(rng.choice([0, 1, 3, 7, 12]))]
        if rng.random() < 0.8:
            ops[m.op] = [(rng.choice(QUALS), rng.choice(QUALS)) for _ in range(rng.choice([0, 1, 2, 5, 9, 20]))]
    indels = None
    if rng.random() < 0.6:
        indels = {}
        for m in muts + extra:
            if m.op[:3] in ("ins", "del") and rng.random() < 0.6:
                indels[m.pos, m.op] = (rng.choice([0, 1, 2, 5]), rng.choice([0, 1, 2, 3, 5, 11]))
    profile = FACTORIES["Profile"](rng, ctx)
    cnv = defaultdict(int)
    for k in range(1000, 1003):
        cnv[k] = rng.choice([0, 1, 2, 5, 10, 20])
    cov = Coverage(gene, profile, None, table, indels, cnv)
    if rng.random() < 0.5:
        cov._region_coverage = {(gi, r): rng.choice(FLOATS) for gi, gr in enumerate(gene.regions) for r in gr}
    return cov
