"""Per-function input hooks for the native contract checker.

A function `gen_<qualname with dots replaced by _>(rng, ctx)` returns a dict with (some of) the
arguments of the function under test; arguments it does not return are generated from their types.
"""
from factories import FACTORIES, UPDATE_VALUES, UNKNOWN_PARAM_NAMES


def gen_aldy_profile_Profile_update(rng, ctx):
    """Profile.update(kwargs): keys are the Profile's attribute names plus a few unknown names; values
    from the fixed pool of the specification (None, booleans, numbers, well- and malformed strings)."""
    prof = FACTORIES["Profile"](rng, ctx)
    names = list(prof.__dict__)
    # the four non-parameter attributes are excluded by the contract's requires: draw them rarely
    params = [n for n in names if n not in ("name", "cn_region", "data", "cn_solution")]
    kwargs = {}
    for _ in range(rng.choice([0, 1, 1, 2, 2, 3, 4])):
        r = rng.random()
        if r < 0.04:
            k = rng.choice(["name", "cn_region", "data", "cn_solution"])
        elif r < 0.14:
            k = rng.choice(UNKNOWN_PARAM_NAMES)
        else:
            k = rng.choice(params)
        kwargs[k] = rng.choice(UPDATE_VALUES)
    return {"self": prof, "kwargs": kwargs}
