/-
The two facts about finite sums that the VC generator's sum-congruence prover (pyvc/bigsum.py) uses
beyond SMT reasoning, and the interpretation that justifies the encoding
  `bigsum<K,V>(fun k => if guard k then term k else 0)`.

* `bigsum_congr`  : pointwise equal summands give equal sums (rule E: the prover replaces two sums whose
                    lambda bodies are proved equal by one fresh constant);
* `bigsum_zero`   : a sum all of whose summands are 0 is 0 (rule Z);
* `bigsum_single` : a sum all of whose summands except the one at `e` are 0 equals the summand at `e` (rule P,
                    the one-point rule: `sum(v for i in range(n) if start + i == p)` - the prover validates
                    `guard i -> i = e` with a quantifier-free query and then replaces the sum by the summand at `e`);
* `bigsum_finset` : the Python value `sum(term k for k in S if guard k)` over a finite collection `S` of
                    distinct keys equals `bigsum` of the guarded summand (so `bigsum := finsum` is a model).
-/
import Mathlib

open scoped BigOperators

namespace AldyVerif

variable {K V : Type*} [AddCommMonoid V]

/-- the interpretation of the uninterpreted symbol `bigsum<K,V>` -/
noncomputable def bigsum (f : K → V) : V := finsum f

theorem bigsum_congr (f g : K → V) (h : ∀ k, f k = g k) : bigsum f = bigsum g := by
  have : f = g := funext h
  rw [this]

theorem bigsum_zero (f : K → V) (h : ∀ k, f k = 0) : bigsum f = 0 := by
  have : f = fun _ => (0 : V) := funext h
  unfold bigsum
  rw [this]
  exact finsum_zero

theorem bigsum_single (f : K → V) (e : K) (h : ∀ k, k ≠ e → f k = 0) : bigsum f = f e := by
  unfold bigsum
  exact finsum_eq_single f e h

theorem bigsum_finset [DecidableEq K] (S : Finset K) (g : K → Prop) [DecidablePred g] (t : K → V) :
    (∑ k ∈ S.filter g, t k) = bigsum (fun k => if k ∈ S ∧ g k then t k else 0) := by
  unfold bigsum
  have hsub : Function.support (fun k => if k ∈ S ∧ g k then t k else 0) ⊆ ↑(S.filter g) := by
    intro k hk
    simp only [Function.mem_support, ne_eq] at hk
    by_cases hc : k ∈ S ∧ g k
    · simp [Finset.mem_filter, hc.1, hc.2]
    · simp [hc] at hk
  rw [finsum_eq_sum_of_support_subset _ hsub]
  apply Finset.sum_congr rfl
  intro k hk
  have : k ∈ S ∧ g k := by simpa [Finset.mem_filter] using hk
  simp [this.1, this.2]

end AldyVerif
